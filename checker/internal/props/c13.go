package props

import (
	"fmt"
	"go/token"
	"go/types"
	"sort"
	"strings"

	"dblint/internal/core"

	"golang.org/x/tools/go/ssa"
)

func init() {
	register(&Spec{ID: "C13", Title: "Cancelled or closed channels never block and never deliver", Run: runC13,
		Meta: core.Meta{
			Explanation: "R13.21 = R12.25. R13.20 (pairing): for every Lock/RLock call in package tds there is a deferred matching unlock on the same mutex after it, or a matching unlock on every path to every return. R13.19 = R14.9. R13.18: in package tds every way from a NextPackage/NextPackageUntil call back to the head of the loop around it passes the nil edge of a test of that call's error. R13.17 = R12.9 (no go statement on the reader goroutine's path). R13.15 = R12.7 (tdsChannelCurFreeId is only ever advanced, by the one atomic add in getValidChannelId: an id given back could be handed to a second live channel, which then replaces the first in the channel map and is the only one Conn.Close closes). R13.16: every return of NextPackageUntil on the failure edge of its NextPackage call returns that error, an fmt.Errorf wrapping it with %w, or an EEDError whose WrappedError is one of those. R13.14 (who-may-call): (*sync.RWMutex).Lock on the mutex embedded in Channel is called only by Channel.Close, SetLastPkgRx and SetLastPkgTx — a writer queued behind a parked receiver blocks every later RLock, also of calls whose context is already cancelled. Structural conditions of non-blocking behaviour; durations are not decided. R13.13: Conn.ctx is stored in NewConn only, from context.With*(…) of NewConn's own context parameter. R13.11: the receiver of every Channel.Close call in Conn.Close is traced (through the snapshot slice, appends and φs) to a range over Conn.tdsChannels, never to a per-id lookup. R13.12: in Channel.Close every return dominated by the store closed = true is dominated by delete(tdsChannels, ·). R13.1: every blocking receive on Channel.packageCh, Channel.errCh or Conn.errCh is a select that also receives from Done() of the caller's context and of the connection context, each branch returning an error that wraps the respective Err() with %w; plain receives occur only after close() of the same channel (the drain in Close). R13.2 (E-LOCK, blocking-under-lock): every send on those channels is examined — a bare send (no select with an escape) executed while the channel's RWMutex is held blocks Close (which needs the write lock); a bare send on Conn.errCh parks the reader goroutine beyond Conn.Close. Bare sends on the reader goroutine's path (functions statically reachable from (*Conn).ReadFrom) are reported as one obligation per queue, bare sends anywhere else one per function. R13.3: every *Channel method that touches the queues or Go channels tests `closed` under the channel lock first (closed edge returns ErrChannelClosed or returns without effect); Close sets closed under the write lock, removes the channel from the connection, and closes both Go channels before draining them. R13.4: in sendPackets every sendPacket call lies in the default arm of a non-blocking select over the caller's and the connection's Done(). R13.5: every path through Conn.Close calls ctxCancel() and conn.Close() and closes the snapshot of channels; Logout bounds its waits with context.WithTimeout. R13.6: the reader loop tests the connection context at its head with an exit and passes that context to Packet.ReadFrom. R13.7 (E-LOCK): no call (including deferred calls, replayed LIFO at each exit) re-acquires a sync.RWMutex the caller already holds — recursive read locking deadlocks against a pending writer. R13.9 (E-LOCK): wherever Conn.tdsChannelsLock is held (read or write) no channel send, blocking receive/select or call that transitively contains one is executed — a reader parked on one channel's full queue would otherwise hold the connection-wide lock that Close and NewChannel of every other channel need. R13.2 also covers every other send in package tds: it is accepted only as the single send on a buffered channel made by the same call (NextPackage's no-wait slot). R13.10: no branch condition in package tds is computed from len() or cap() of a Go channel. R13.8: in every *Channel method with a ctx parameter, every context argument passed on derives from that parameter.",
			NotDecided:  "Latencies, goroutine counts and races between cancel and delivery are not decided; schedules are not explored.",
			Assumptions: []string{"sync.RWMutex blocks new readers behind a pending writer (documented)", "select semantics of the Go specification"},
		}})
}

func runC13(r *core.Run) {
	p := r.Prog
	la := newLockAnalysis(p, "tds")
	r.Rule("R13.1", "blocking receives on the package/error queues can be interrupted by both contexts", 2, true)
	r.Rule("R13.2", "sends on the package/error queues offer an escape (not bare, not under the channel lock)", 3, false)
	r.Rule("R13.3", "closed protocol: test under the lock first; Close tears down in order", 7, false)
	r.Rule("R13.4", "context test before every packet write", 1, false)
	r.Rule("R13.5", "Conn.Close always cancels, closes the transport and the channels; Logout is bounded", 3, false)
	r.Rule("R13.6", "reader loop is bound to the connection context", 2, false)
	r.Rule("R13.7", "no re-acquisition of a held RWMutex through a callee (incl. deferred calls)", 40, true)
	r.Rule("R13.8", "context arguments derive from the caller's ctx", 7, true)
	r.Rule("R13.9", "the connection's channel-map lock is never held across an operation that can block on a queue", 1, false)
	defer c13NoBlockUnderMapLock(r, la, "R13.9")
	r.Rule("R13.10", "no control decision on len()/cap() of a Go channel", 1, false)
	defer c13NoLenOfChan(r, la)
	r.Rule("R13.11", "Conn.Close closes the values of a range over the channel map", 1, false)
	defer c13CloseAll(r)
	r.Rule("R13.12", "Channel.Close unregisters the channel on every path that marks it closed", 1, false)
	defer c13Unregister(r)
	r.Rule("R13.13", "the connection's context descends from the context passed to NewConn", 1, false)
	defer c13ConnCtx(r)
	r.Rule("R13.14", "the channel's write lock is taken by Close and the one-assignment setters only", 3, false)
	defer c13WriteLockers(r)
	r.Rule("R13.15", "a channel id is handed out once: the counter only moves forward, in getValidChannelId (R12.7)", 1, false)
	defer c12IdFromAdd(r, "R13.15")
	r.Rule("R13.16", "NextPackageUntil returns a failed receive with its error in the chain (context errors, closed condition)", 1, false)
	defer untilKeepsChain(r, "R13.16")
	r.Rule("R13.17", "hooks and packages are delivered by the reader goroutine itself (R12.9): nothing started by it can deliver after Close", 1, false)
	defer c12NoGoOnReaderPath(r, "R13.17")
	r.Rule("R13.18", "a loop around a receive call ends on any error (a closed channel fails every call at once)", 1, false)
	defer receiveLoopsEndOnError(r, "R13.18")
	r.Rule("R13.19", "the wait for the rest of a packet consults a context derived from the connection's (R14.9): Close ends the reader", 1, false)
	defer c14TimeoutArmed(r, "R13.19")
	r.Rule("R13.20", "every lock taken in package tds is released on every exit", 10, false)
	defer locksReleased(r, "R13.20")
	r.Rule("R13.21", "the reader can always report an error and go on to its exit test (R12.25)", 2, false)
	defer errQueuesBuffered(r, "R13.21")

	designated := map[*types.Var]string{
		p.Field("tds", "Channel", "packageCh"): "Channel.packageCh",
		p.Field("tds", "Channel", "errCh"):     "Channel.errCh",
		p.Field("tds", "Conn", "errCh"):        "Conn.errCh",
	}
	chanField := func(v ssa.Value) (*types.Var, bool) {
		f, _ := core.FieldLoad(v)
		_, ok := designated[f]
		return f, ok
	}

	// the reader goroutine's code: everything statically reachable from (*Conn).ReadFrom
	readerPath := readerPathFuncs(p)
	readerSends := map[*types.Var][]*ssa.Send{}
	defer func() {
		for f, name := range designated {
			ss := readerSends[f]
			if len(ss) == 0 {
				continue
			}
			sort.Slice(ss, func(i, j int) bool { return ss[i].Pos() < ss[j].Pos() })
			var at []string
			for _, x := range ss {
				at = append(at, p.Pos(x.Pos()))
			}
			r.Bad("R13.2", "reader goroutine: bare sends on "+name, ss[0].Pos(), fmt.Sprintf("%d bare send(s) on the bounded queue %s on the reader goroutine's path (%s): with a full queue the reader parks on the send (holding the channel's read lock where it is taken), is not ended by cancelling the connection context, and Close (write lock) never returns", len(ss), name, strings.Join(at, ", ")))
		}
	}()

	for _, fn := range la.funcs {
		for _, b := range fn.Blocks {
			for _, in := range b.Instrs {
				switch x := in.(type) {
				case *ssa.Send:
					f, ok := chanField(x.Chan)
					if !ok {
						// any other send: accepted only on a channel made by this very call with room for it
						// (cannot block, and nothing is left behind for a later call)
						mk, isMk := x.Chan.(*ssa.MakeChan)
						key := core.FuncName(fn) + ": send on " + core.KExpr(x.Chan)
						if isMk {
							key = core.FuncName(fn) + ": send on a channel made by this call"
						}
						capOK := false
						if isMk {
							if k, isC := core.ConstInt64(mk.Size); isC && k >= 1 {
								capOK = true
							}
						}
						_, inLoop := core.InnermostLoop(b)
						switch {
						case !isMk:
							r.Bad("R13.2", key, x.Pos(), "bare send on a channel that outlives the call ("+core.Expr(x.Chan)+"): it blocks when the slot is still occupied, and a token left behind by one call is received by a later one")
						case !capOK || inLoop != nil:
							r.Bad("R13.2", key, x.Pos(), "bare send on a local channel without guaranteed room (unbuffered, or sent to repeatedly)")
						default:
							r.OK("R13.2", key, x.Pos(), "one send on a buffered channel created by this call")
						}
						continue
					}
					ls := la.At(x)
					key := core.FuncName(fn) + ": bare send on " + designated[f]
					if readerPath[fn] {
						// one finding per queue for the reader goroutine (the defect is the hand-off design, not
						// the individual statement): stable when a send moves into a helper of the reader path
						readerSends[f] = append(readerSends[f], x)
						continue
					}
					if _, held := ls["p0.RWMutex"]; held {
						r.Bad("R13.2", key, x.Pos(), "bare send while the channel's RWMutex is held "+ls.String()+": with a full queue the sender parks holding the read lock and Close (write lock) never returns")
					} else {
						r.Bad("R13.2", key, x.Pos(), "bare send without a select that offers ctx.Done(): once the queue is full the goroutine parks here and is not ended by cancelling the connection context")
					}
				case *ssa.Select:
					c13Select(r, fn, x, chanField, designated)
				case *ssa.UnOp:
					if x.Op != token.ARROW {
						continue
					}
					f, ok := chanField(x.X)
					if !ok {
						continue
					}
					key := core.FuncName(fn) + ": plain receive on " + designated[f]
					// fine only after close() of the same field in this function
					closed := false
					for _, c := range core.Calls(fn) {
						cc, isC := c.(*ssa.Call)
						if !isC {
							continue
						}
						if bi, isB := cc.Call.Value.(*ssa.Builtin); isB && bi.Name() == "close" {
							if f2, _ := core.FieldLoad(cc.Call.Args[0]); f2 == f && core.Dominates(cc, x) {
								closed = true
							}
						}
					}
					r.Check(closed, "R13.1", key, x.Pos(), "receive from a channel this function has closed: cannot block", "a plain receive on a queue that may be empty and open blocks without regard to any context")
				}
			}
		}
	}

	c13Closed(r, la, "R13.3")
	c13SendPackets(r)
	c13ConnClose(r)
	c13Reader(r)
	c13Reacquire(r, la, "R13.7")
	for _, fn := range la.funcs {
		if rn := core.RecvNamed(fn); rn == nil || rn.Obj().Name() != "Channel" {
			if fn.Parent() == nil || core.RecvNamed(fn.Parent()) == nil || core.RecvNamed(fn.Parent()).Obj().Name() != "Channel" {
				continue
			}
		}
		if fn.Name() == "Login" || (fn.Parent() != nil && fn.Parent().Name() == "Login") {
			continue // C08's R08.4
		}
		outer := fn
		if fn.Parent() != nil {
			outer = fn.Parent()
		}
		if ctxParam(outer) == nil {
			continue
		}
		checkCtxArgs(r, "R13.8", fn, outer.Params)
	}
	for _, fn := range posexFuncs(p, "zzPosexLogin") {
		checkCtxArgs(r, "R13.8", fn, fn.Params)
	}
}

func c13Select(r *core.Run, fn *ssa.Function, sel *ssa.Select, chanField func(ssa.Value) (*types.Var, bool), designated map[*types.Var]string) {
	p := r.Prog
	touches := ""
	for _, st := range sel.States {
		if f, ok := chanField(st.Chan); ok {
			touches = designated[f]
		}
	}
	if touches == "" {
		return
	}
	key := core.FuncName(fn) + ": select on " + touches
	if !sel.Blocking {
		r.OK("R13.1", key+" (non-blocking)", sel.Pos(), "select with default cannot block")
		return
	}
	fConnCtx := p.Field("tds", "Conn", "ctx")
	param := ctxParam(fn)
	haveCaller, haveConn := false, false
	wrapOK := true
	for i, st := range sel.States {
		if st.Dir != types.RecvOnly {
			continue
		}
		call, ok := st.Chan.(*ssa.Call)
		if !ok || !call.Call.IsInvoke() || call.Call.Method.Name() != "Done" || !core.IsContextType(call.Call.Value.Type()) {
			continue
		}
		recv := call.Call.Value
		isCaller := param != nil && ctxDerivedFrom(recv, param, 0)
		f, _ := core.FieldLoad(recv)
		isConn := f == fConnCtx
		if !isCaller && !isConn {
			continue
		}
		// the branch returns an error wrapping recv.Err()
		rets := selectBranchReturns(sel, i)
		good := len(rets) > 0
		for _, ret := range rets {
			rv := core.RetVals(ret)
			ev := rv[len(rv)-1]
			c2, isCall := ev.(*ssa.Call)
			wraps := false
			if isCall {
				if ws, isErrorf := errorfWraps(c2); isErrorf {
					for _, w := range ws {
						if rc, ok := core.IsContextErrCall(w); ok {
							if rc == recv {
								wraps = true
							} else if f2, _ := core.FieldLoad(rc); f2 != nil && f2 == f {
								wraps = true
							}
						}
					}
				}
			}
			if rc, ok := core.IsContextErrCall(ev); ok && rc == recv {
				wraps = true
			}
			if !wraps {
				good = false
			}
		}
		if !good {
			wrapOK = false
		}
		if isCaller {
			haveCaller = true
		}
		if isConn {
			haveConn = true
		}
	}
	switch {
	case !haveCaller:
		r.Bad("R13.1", key, sel.Pos(), "the blocking select has no case for Done() of the caller's context: cancelling the call's context does not end the wait")
	case !haveConn:
		r.Bad("R13.1", key, sel.Pos(), "the blocking select has no case for Done() of the connection context: closing the connection does not end the wait")
	case !wrapOK:
		r.Bad("R13.1", key, sel.Pos(), "a Done() branch does not return an error that wraps the context's Err() with %w")
	default:
		r.OK("R13.1", key, sel.Pos(), "both contexts can interrupt the wait; each branch returns fmt.Errorf(%w, ctx.Err())")
	}
}

func c13Closed(r *core.Run, la *lockAnalysis, rule string) {
	p := r.Prog
	sensitive := map[*types.Var]bool{
		p.Field("tds", "Channel", "packageCh"): true, p.Field("tds", "Channel", "errCh"): true,
		p.Field("tds", "Channel", "queueRx"): true, p.Field("tds", "Channel", "queueTx"): true,
	}
	errClosed := p.Global("tds", "ErrChannelClosed")
	fClosed := p.Field("tds", "Channel", "closed")
	closeFn := p.Func("tds", "Channel", "Close")
	for _, fn := range la.funcs {
		rn := core.RecvNamed(fn)
		if rn == nil || rn.Obj().Name() != "Channel" || fn.Parent() != nil || !token.IsExported(fn.Name()) || fn == closeFn {
			continue
		}
		uses := false
		helpers := sensitiveHelpers(p, la, sensitive)
		for _, b := range fn.Blocks {
			for _, in := range b.Instrs {
				if fa, ok := in.(*ssa.FieldAddr); ok && sensitive[core.FieldOfAddr(fa)] && fa.X == ssa.Value(fn.Params[0]) {
					uses = true
				}
				if c, ok := in.(ssa.CallInstruction); ok {
					if f := core.StaticCallee(c); f != nil && helpers[f] && len(c.Common().Args) > 0 && c.Common().Args[0] == ssa.Value(fn.Params[0]) {
						uses = true
					}
				}
			}
		}
		if !uses {
			continue
		}
		ok, why := closedPrologue(p, la, fn)
		key := core.FuncName(fn) + ": closed tested under the lock before use"
		if ok {
			// closed edge: returns ErrChannelClosed in the error position, or has no error result
			for _, b := range fn.Blocks {
				iff, isIf := b.Instrs[len(b.Instrs)-1].(*ssa.If)
				if !isIf {
					continue
				}
				if f, _ := core.FieldLoad(iff.Cond); f != fClosed {
					continue
				}
				t := b.Succs[0]
				ret, isRet := t.Instrs[len(t.Instrs)-1].(*ssa.Return)
				if !isRet {
					ok, why = false, "the closed edge does not return"
					continue
				}
				rv := core.RetVals(ret)
				if len(rv) > 0 && core.IsErrorType(rv[len(rv)-1].Type()) {
					u, isU := rv[len(rv)-1].(*ssa.UnOp)
					if !isU || u.X != ssa.Value(errClosed) {
						ok, why = false, "the closed edge does not report ErrChannelClosed"
					}
				}
			}
		}
		r.Check(ok, rule, key, fn.Pos(), "RLock, test closed, closed edge returns (ErrChannelClosed)", why)
	}
	// Close
	fPackageCh := p.Field("tds", "Channel", "packageCh")
	fErrCh := p.Field("tds", "Channel", "errCh")
	var storeClosed *ssa.Store
	for _, b := range closeFn.Blocks {
		for _, in := range b.Instrs {
			if st, ok := in.(*ssa.Store); ok {
				if fa, ok := st.Addr.(*ssa.FieldAddr); ok && core.FieldOfAddr(fa) == fClosed {
					storeClosed = st
				}
			}
		}
	}
	okC, whyC := storeClosed != nil, "Close does not set closed"
	if okC {
		ls := la.At(storeClosed)
		if ls["p0.RWMutex"] != modeW {
			okC, whyC = false, "closed is set without the write lock "+ls.String()
		}
		c, isC := storeClosed.Val.(*ssa.Const)
		if !isC || c.Value == nil || c.Value.ExactString() != "true" {
			okC, whyC = false, "closed is not set to true"
		}
	}
	r.Check(okC, rule, "Close: closed = true under the write lock", closeFn.Pos(), "Lock(); closed = true", whyC)
	for _, f := range []*types.Var{fPackageCh, fErrCh} {
		var cl *ssa.Call
		for _, c := range core.Calls(closeFn) {
			cc, isC := c.(*ssa.Call)
			if !isC {
				continue
			}
			if bi, isB := cc.Call.Value.(*ssa.Builtin); isB && bi.Name() == "close" {
				if f2, _ := core.FieldLoad(cc.Call.Args[0]); f2 == f {
					cl = cc
				}
			}
		}
		ok := cl != nil && storeClosed != nil && core.Dominates(storeClosed, cl)
		r.Check(ok, rule, "Close: close("+f.Name()+") after closed = true", closeFn.Pos(), "the Go channel is closed after the flag is set under the write lock", "the Go channel "+f.Name()+" is not closed after marking the channel closed: waiting receivers are not released / later sends are not prevented")
	}
}

func c13SendPackets(r *core.Run) {
	p := r.Prog
	fn := p.Func("tds", "Channel", "sendPackets")
	sp := p.Func("tds", "Channel", "sendPacket")
	fConnCtx := p.Field("tds", "Conn", "ctx")
	param := ctxParam(fn)
	calls := callsTo(fn, sp)
	if len(calls) == 0 {
		r.Unknown("R13.4", "sendPackets: ctx test before each packet", fn.Pos(), "no sendPacket call")
		return
	}
	for _, c := range calls {
		ok, why := false, "the packet write is not in the default arm of a non-blocking select over both contexts"
		for _, b := range fn.Blocks {
			for _, in := range b.Instrs {
				sel, isSel := in.(*ssa.Select)
				if !isSel || sel.Blocking {
					continue
				}
				haveCaller, haveConn := false, false
				n := 0
				for _, st := range sel.States {
					call, isCall := st.Chan.(*ssa.Call)
					if !isCall || !call.Call.IsInvoke() || call.Call.Method.Name() != "Done" {
						continue
					}
					n++
					if param != nil && ctxDerivedFrom(call.Call.Value, param, 0) {
						haveCaller = true
					}
					if f, _ := core.FieldLoad(call.Call.Value); f == fConnCtx {
						haveConn = true
					}
				}
				if !haveCaller || !haveConn {
					continue
				}
				// the call is dominated by "index != k" for every state k, and the select is evaluated in the same loop iteration
				var idx *ssa.Extract
				for _, ref := range *sel.Referrers() {
					if ex, isEx := ref.(*ssa.Extract); isEx && ex.Index == 0 {
						idx = ex
					}
				}
				if idx == nil {
					continue
				}
				neg := 0
				for _, g := range core.GuardsAt(c.(ssa.Instruction)) {
					if bo, isB := g.Cond.(*ssa.BinOp); isB && bo.X == ssa.Value(idx) && bo.Op == token.EQL && !g.Pol {
						neg++
					}
				}
				_, l1 := core.InnermostLoop(c.Block())
				if neg >= len(sel.States) && core.Dominates(sel, c.(ssa.Instruction)) && (l1 == nil || l1[sel.Block()]) {
					ok = true
				} else {
					why = "the select over the contexts does not guard this packet write in the same loop iteration"
				}
			}
		}
		r.Check(ok, "R13.4", "sendPackets: ctx test before each packet", c.Pos(), "default arm of select{<-ctx.Done(), <-tdsConn.ctx.Done()}", why)
	}
}

func c13ConnClose(r *core.Run) {
	p := r.Prog
	fn := p.Func("tds", "Conn", "Close")
	fCancel := p.Field("tds", "Conn", "ctxCancel")
	fConn := p.Field("tds", "Conn", "conn")
	chClose := p.Func("tds", "Channel", "Close")
	isCancel := func(in ssa.Instruction) bool {
		c, ok := in.(*ssa.Call)
		if !ok {
			return false
		}
		f, _ := core.FieldLoad(c.Call.Value)
		return f == fCancel
	}
	isTransportClose := func(in ssa.Instruction) bool {
		c, ok := in.(*ssa.Call)
		if !ok || !c.Call.IsInvoke() || c.Call.Method.Name() != "Close" {
			return false
		}
		f, _ := core.FieldLoad(c.Call.Value)
		return f == fConn
	}
	missCancel, missClose := false, false
	core.EnumPaths(fn.Blocks[0], func(b *ssa.BasicBlock) bool { return false }, nil, 5000, func(pa core.Path, ended bool) {
		last := pa.Blocks[len(pa.Blocks)-1]
		if _, ok := last.Instrs[len(last.Instrs)-1].(*ssa.Return); !ok {
			return
		}
		hc, ht := false, false
		for _, b := range pa.Blocks {
			for _, in := range b.Instrs {
				if isCancel(in) {
					hc = true
				}
				if isTransportClose(in) {
					ht = true
				}
			}
		}
		if !hc {
			missCancel = true
		}
		if !ht {
			missClose = true
		}
	})
	// deferred calls count for every path
	for _, c := range core.Calls(fn) {
		if d, ok := c.(*ssa.Defer); ok {
			if f, _ := core.FieldLoad(d.Call.Value); f == fCancel {
				missCancel = false
			}
		}
	}
	r.Check(!missCancel, "R13.5", "Conn.Close: ctxCancel() on every path", fn.Pos(), "every return is preceded by ctxCancel()", "a path through Conn.Close returns without cancelling the connection context: the reader goroutine and waiting calls are not ended")
	r.Check(!missClose, "R13.5", "Conn.Close: conn.Close() on every path", fn.Pos(), "every return is preceded by conn.Close()", "a path through Conn.Close returns without closing the transport")
	r.Check(len(callsTo(fn, chClose)) > 0, "R13.5", "Conn.Close: closes its channels", fn.Pos(), "Channel.Close is called for the snapshot of channels", "Conn.Close no longer closes its channels")

	// Logout bounded
	lo := p.Func("tds", "Channel", "Logout")
	okLo, n := true, 0
	for _, c := range core.Calls(lo) {
		f := core.StaticCallee(c)
		if f == nil || !core.InModule(f) {
			continue
		}
		for _, a := range c.Common().Args {
			if !core.IsContextType(a.Type()) {
				continue
			}
			n++
			ex, isEx := a.(*ssa.Extract)
			if !isEx {
				okLo = false
				continue
			}
			call, isCall := ex.Tuple.(*ssa.Call)
			if !isCall || !(core.IsPkgFunc(call, "context", "WithTimeout") || core.IsPkgFunc(call, "context", "WithDeadline")) {
				okLo = false
			}
		}
	}
	r.Check(okLo && n > 0, "R13.5", "Logout: waits bounded by context.WithTimeout", lo.Pos(), "every context passed on comes from context.WithTimeout", "Logout waits on a context without a deadline: Close can block for ever on an unresponsive peer")
}

func c13Reader(r *core.Run) {
	p := r.Prog
	fn := p.Func("tds", "Conn", "ReadFrom")
	pread := p.Func("tds", "Packet", "ReadFrom")
	fCtx := p.Field("tds", "Conn", "ctx")
	calls := callsTo(fn, pread)
	if len(calls) != 1 {
		r.Unknown("R13.6", "Conn.ReadFrom", fn.Pos(), "packet.ReadFrom call not found")
		return
	}
	c := calls[0]
	args := c.Common().Args
	okArg := false
	for _, a := range args {
		if core.IsContextType(a.Type()) {
			if f, _ := core.FieldLoad(a); f == fCtx {
				okArg = true
			}
		}
	}
	r.Check(okArg, "R13.6", "Conn.ReadFrom: packet reads use the connection context", c.Pos(), "Packet.ReadFrom(tds.ctx, ...)", "the reader passes a context other than the connection's to the packet reader: cancelling the connection does not end a pending read loop")
	_, loop := core.InnermostLoop(c.Block())
	okHead := false
	if loop != nil {
		for b := range loop {
			iff, ok := b.Instrs[len(b.Instrs)-1].(*ssa.If)
			if !ok || !condHasContextErr(iff.Cond) {
				continue
			}
			bo := iff.Cond.(*ssa.BinOp)
			rc, _ := core.IsContextErrCall(bo.X)
			if f, _ := core.FieldLoad(rc); f != fCtx {
				continue
			}
			for _, s := range b.Succs {
				if !loop[s] {
					if _, isRet := s.Instrs[len(s.Instrs)-1].(*ssa.Return); isRet && core.Dominates(iff, c.(ssa.Instruction)) {
						okHead = true
					}
				}
			}
		}
	}
	r.Check(okHead, "R13.6", "Conn.ReadFrom: loop ends when the connection context is cancelled", fn.Pos(), "tds.ctx.Err() tested before every packet read, with a return", "the reader loop does not test the connection context before reading: Conn.Close does not end the reader")
}

func c13Reacquire(r *core.Run, la *lockAnalysis, rule string) {
	for _, fn := range la.funcs {
		check := func(c ssa.CallInstruction, ls lockset, deferred bool) {
			f := core.StaticCallee(c)
			if f == nil {
				return
			}
			acq := la.acquires[f]
			if acq == nil {
				return
			}
			if _, _, isLock := lockOp(c); isLock {
				return
			}
			key := core.FuncName(fn) + " -> " + core.FuncName(f)
			if deferred {
				key += " (deferred)"
			}
			bad := ""
			for k := range acq {
				bk, ok := la.backTranslate(c, k)
				if !ok {
					continue
				}
				if held, has := ls[bk]; has {
					bad = fmt.Sprintf("%s acquires %s, which the caller already holds (%s/%c): a second RLock queues behind a pending Lock (Close) and both goroutines deadlock", core.FuncName(f), bk, bk, held)
				}
			}
			if bad != "" {
				r.Bad(rule, key, c.Pos(), bad)
			} else if len(acq) > 0 {
				r.OK(rule, key, c.Pos(), "callee's locks are not held at the call")
			}
		}
		for _, c := range core.Calls(fn) {
			switch c.(type) {
			case *ssa.Defer, *ssa.Go:
				continue
			}
			check(c, la.At(c.(ssa.Instruction)), false)
		}
		// deferred calls replayed at each return
		checked := map[*ssa.Defer]bool{}
		for _, ret := range core.Returns(fn) {
			ds := deferredBefore(fn, ret)
			if len(ds) == 0 {
				continue
			}
			ls := la.At(ret)
			for i := len(ds) - 1; i >= 0; i-- {
				d := ds[i]
				if op, arg, ok := lockOp(d); ok {
					if k, ok := lockKey(fn, arg); ok && (op == "Unlock" || op == "RUnlock") {
						delete(ls, k)
					}
					continue
				}
				if !checked[d] {
					checked[d] = true
					check(d, ls, true)
				}
			}
		}
	}
}

// c13NoBlockUnderMapLock: R13.9.
func c13NoBlockUnderMapLock(r *core.Run, la *lockAnalysis, rule string) {
	// functions that can block on a Go channel (send, blocking receive or blocking select), transitively
	blocks := map[*ssa.Function]string{}
	direct := func(fn *ssa.Function) string {
		for _, b := range fn.Blocks {
			for _, in := range b.Instrs {
				switch x := in.(type) {
				case *ssa.Send:
					return "send at " + r.Prog.Pos(x.Pos())
				case *ssa.Select:
					if x.Blocking {
						return "blocking select at " + r.Prog.Pos(x.Pos())
					}
				case *ssa.UnOp:
					if x.Op == token.ARROW {
						return "receive at " + r.Prog.Pos(x.Pos())
					}
				}
			}
		}
		return ""
	}
	for _, fn := range la.funcs {
		if w := direct(fn); w != "" {
			blocks[fn] = w
		}
	}
	for changed := true; changed; {
		changed = false
		for _, fn := range la.funcs {
			if blocks[fn] != "" {
				continue
			}
			for _, c := range core.Calls(fn) {
				if _, isGo := c.(*ssa.Go); isGo {
					continue
				}
				if f := core.StaticCallee(c); f != nil && blocks[f] != "" {
					blocks[fn] = "calls " + core.FuncName(f) + " (" + blocks[f] + ")"
					changed = true
					break
				}
			}
		}
	}
	heldMap := func(ls lockset) string {
		for k := range ls {
			if strings.HasSuffix(k, ".tdsChannelsLock") {
				return k
			}
		}
		return ""
	}
	regions := 0
	for _, fn := range la.funcs {
		for _, b := range fn.Blocks {
			for _, in := range b.Instrs {
				ls := la.At(in)
				k := heldMap(ls)
				if k == "" {
					continue
				}
				if c, ok := in.(ssa.CallInstruction); ok {
					if op, _, isLock := lockOp(c); isLock && (op == "Unlock" || op == "RUnlock") {
						regions++
					}
				}
				what := ""
				switch x := in.(type) {
				case *ssa.Send:
					what = "a channel send"
				case *ssa.Select:
					if x.Blocking {
						what = "a blocking select"
					}
				case *ssa.UnOp:
					if x.Op == token.ARROW {
						what = "a channel receive"
					}
				case *ssa.Call:
					if f := core.StaticCallee(x); f != nil && blocks[f] != "" {
						what = "a call of " + core.FuncName(f) + ", which " + blocks[f]
					}
				}
				if what != "" {
					r.Bad(rule, core.FuncName(fn)+": blocking operation under Conn.tdsChannelsLock", in.Pos(), what+" is executed while "+k+" is held: when the queue is full the goroutine parks holding the connection-wide lock, and Close/NewChannel of every other channel (which need the write lock) hang")
				}
			}
		}
	}
	r.Check(regions >= 3, rule, "critical sections of Conn.tdsChannelsLock are free of blocking operations", token.NoPos, fmt.Sprintf("%d critical sections inspected", regions), "fewer than three critical sections of tdsChannelsLock seen: the rule does not see the code")
}

// readerPathFuncs: the reader goroutine's code — everything statically reachable from (*Conn).ReadFrom.
func readerPathFuncs(p *core.Prog) map[*ssa.Function]bool {
	readerPath := map[*ssa.Function]bool{}
	var mark func(fn *ssa.Function)
	mark = func(fn *ssa.Function) {
		if fn == nil || readerPath[fn] || !core.InModule(fn) {
			return
		}
		readerPath[fn] = true
		for _, c := range core.Calls(fn) {
			mark(core.StaticCallee(c))
		}
		for _, a := range fn.AnonFuncs {
			mark(a)
		}
	}
	mark(p.Func("tds", "Conn", "ReadFrom"))
	return readerPath
}

// c13NoLenOfChan: R13.10. No control decision in package tds is taken on len() or cap() of a Go channel: the answer
// is stale the moment it is read (the reader goroutine fills the queue concurrently), and skipping a step of Close or
// of a receive because the queue "is empty"/"is not empty" makes the bounded-time and closed-condition guarantees
// depend on the fill level.
func c13NoLenOfChan(r *core.Run, la *lockAnalysis) {
	n := 0
	var dep func(v ssa.Value, d int) ssa.Value
	dep = func(v ssa.Value, d int) ssa.Value {
		if d > 4 || v == nil {
			return nil
		}
		switch x := v.(type) {
		case *ssa.Call:
			if bi, ok := x.Call.Value.(*ssa.Builtin); ok && (bi.Name() == "len" || bi.Name() == "cap") {
				if _, isChan := x.Call.Args[0].Type().Underlying().(*types.Chan); isChan {
					return x
				}
			}
		case *ssa.BinOp:
			if t := dep(x.X, d+1); t != nil {
				return t
			}
			return dep(x.Y, d+1)
		case *ssa.UnOp:
			return dep(x.X, d+1)
		case *ssa.Convert:
			return dep(x.X, d+1)
		}
		return nil
	}
	for _, fn := range la.funcs {
		for _, b := range fn.Blocks {
			if len(b.Instrs) == 0 {
				continue
			}
			iff, ok := b.Instrs[len(b.Instrs)-1].(*ssa.If)
			if !ok {
				continue
			}
			n++
			if t := dep(iff.Cond, 0); t != nil {
				r.Bad("R13.10", core.FuncName(fn)+": branch on "+core.KExpr(t), t.Pos(), "a branch is taken on "+core.Expr(t)+": the fill level of a queue that another goroutine writes decides whether a step (e.g. the logout that also frees a blocked reader) is performed, so Close can hang or a receive can misreport depending on how many packages happen to be queued")
			}
		}
	}
	r.Check(n > 0, "R13.10", "no branch on the fill level of a Go channel", token.NoPos, fmt.Sprintf("%d branches in package tds inspected", n), "no branches seen")
}

// c13CloseAll: R13.11. The channels Conn.Close closes are the values of a range over Conn.tdsChannels (directly or
// through a snapshot slice filled from that range). Looking ids up one by one assumes something about which ids are
// registered (dense, below a counter) that Channel.Close — which deletes ids — does not maintain, and the channels
// left out are never closed.
func c13CloseAll(r *core.Run) {
	p := r.Prog
	fn := p.Func("tds", "Conn", "Close")
	chClose := p.Func("tds", "Channel", "Close")
	fCh := p.Field("tds", "Conn", "tdsChannels")
	calls := callsTo(fn, chClose)
	for _, c := range calls {
		seen := map[ssa.Value]bool{}
		viaRange, viaLookup := false, false
		var walk func(v ssa.Value, d int)
		walk = func(v ssa.Value, d int) {
			if v == nil || seen[v] || d > 40 {
				return
			}
			seen[v] = true
			switch x := v.(type) {
			case *ssa.Extract:
				walk(x.Tuple, d+1)
			case *ssa.Next:
				walk(x.Iter, d+1)
			case *ssa.Range:
				if f, _ := core.FieldLoad(x.X); f == fCh {
					viaRange = true
				} else {
					walk(x.X, d+1)
				}
			case *ssa.Lookup:
				if f, _ := core.FieldLoad(x.X); f == fCh {
					viaLookup = true
				} else {
					walk(x.X, d+1)
				}
			case *ssa.Phi:
				for _, e := range x.Edges {
					walk(e, d+1)
				}
			case *ssa.Slice:
				walk(x.X, d+1)
			case *ssa.Call:
				if bi, ok := x.Call.Value.(*ssa.Builtin); ok && bi.Name() == "append" {
					for _, a := range x.Call.Args {
						walk(a, d+1)
					}
				} else if f := x.Call.StaticCallee(); f != nil && core.InModule(f) && f.Blocks != nil {
					// a snapshot helper: what it returns
					for _, ret := range core.Returns(f) {
						for _, rv := range core.RetVals(ret) {
							walk(rv, d+1)
						}
					}
				}
			case *ssa.UnOp:
				if x.Op == token.MUL {
					walk(x.X, d+1)
				}
			case *ssa.IndexAddr:
				walk(x.X, d+1)
			case *ssa.Index:
				walk(x.X, d+1)
			case *ssa.MakeSlice, *ssa.Alloc:
				// what is stored into it
				for _, ref := range *v.Referrers() {
					switch y := ref.(type) {
					case *ssa.IndexAddr:
						for _, r2 := range *y.Referrers() {
							if st, ok := r2.(*ssa.Store); ok && st.Addr == ssa.Value(y) {
								walk(st.Val, d+1)
							}
						}
					case *ssa.Store:
						if y.Addr == v {
							walk(y.Val, d+1)
						}
					}
				}
			case *ssa.ChangeType:
				walk(x.X, d+1)
			}
		}
		walk(c.Common().Args[0], 0)
		why := ""
		switch {
		case viaLookup:
			why = "Conn.Close picks the channels to close by looking ids up in tdsChannels one by one: ids are not dense once a channel has been closed (Channel.Close deletes its id, ids are not reused), so channels with the highest ids are left open"
		case !viaRange:
			why = "the channels Conn.Close closes are not the values of a range over Conn.tdsChannels: a channel registered on the connection may be left open"
		}
		r.Check(why == "", "R13.11", "Conn.Close: closes the values of a range over tdsChannels", c.Pos(), "receiver of Channel.Close traced to range tds.tdsChannels", why)
	}
	if len(calls) == 0 {
		r.Bad("R13.11", "Conn.Close: closes the values of a range over tdsChannels", fn.Pos(), "Conn.Close does not call Channel.Close")
	}
}

// c13Unregister: R13.12. Channel.Close removes the channel from Conn.tdsChannels on every path on which it marks it
// closed — not only when the logout/teardown went through. A closed channel that stays registered is closed a second
// time by Conn.Close, which closes the already nil-ed queues and panics before it cancels the context and closes the
// transport.
func c13Unregister(r *core.Run) {
	p := r.Prog
	fn := p.Func("tds", "Channel", "Close")
	fClosed := p.Field("tds", "Channel", "closed")
	fCh := p.Field("tds", "Conn", "tdsChannels")
	var marks []ssa.Instruction
	var dels []ssa.Instruction
	for _, b := range fn.Blocks {
		for _, in := range b.Instrs {
			switch x := in.(type) {
			case *ssa.Store:
				if fa, ok := x.Addr.(*ssa.FieldAddr); ok && core.FieldOfAddr(fa) == fClosed {
					if c, isC := x.Val.(*ssa.Const); isC && c.Value != nil && c.Value.String() == "true" {
						marks = append(marks, x)
					}
				}
			case *ssa.Call:
				if bi, ok := x.Call.Value.(*ssa.Builtin); ok && bi.Name() == "delete" {
					if f, _ := core.FieldLoad(x.Call.Args[0]); f == fCh {
						dels = append(dels, x)
					}
				}
			}
		}
	}
	why := ""
	if len(marks) == 0 {
		why = "Channel.Close no longer stores closed = true"
	}
	for _, m := range marks {
		for _, ret := range core.Returns(fn) {
			if !core.Dominates(m, ret) {
				continue
			}
			ok := false
			for _, d := range dels {
				if core.Dominates(d, ret) {
					ok = true
				}
			}
			if !ok {
				why = "a path through Channel.Close marks the channel closed and returns without delete(tdsChannels, id): the closed channel stays registered, Conn.Close closes it a second time (close of a nil channel panics) and never reaches ctxCancel()/conn.Close()"
			}
		}
	}
	r.Check(why == "", "R13.12", "Channel.Close: unregisters on every path that marks closed", fn.Pos(), fmt.Sprintf("%d store(s) of closed = true, every return they dominate is dominated by the delete", len(marks)), why)
}

// c13ConnCtx: R13.13. "The connection's context" of the property is the one handed to NewConn: Conn.ctx is assigned
// in NewConn only, from context.WithCancel (or another context.With*) of that very parameter. A connection context
// rooted in context.Background() is cancelled by Close alone, and the tdsConn.ctx arms of NextPackage and sendPackets
// never fire when the caller cancels what it passed.
func c13ConnCtx(r *core.Run) {
	p := r.Prog
	nc := p.Func("tds", "", "NewConn")
	fCtx := p.Field("tds", "Conn", "ctx")
	var ctxParam *ssa.Parameter
	for _, prm := range nc.Params {
		if core.IsContextType(prm.Type()) {
			ctxParam = prm
		}
	}
	var fromParam func(v ssa.Value, d int) bool
	fromParam = func(v ssa.Value, d int) bool {
		if d > 6 || v == nil {
			return false
		}
		v = core.Strip(v)
		if v == ssa.Value(ctxParam) {
			return true
		}
		if ex, ok := v.(*ssa.Extract); ok {
			v = ex.Tuple
		}
		if c, ok := v.(*ssa.Call); ok {
			if f := c.Call.StaticCallee(); f != nil && f.Pkg != nil && f.Pkg.Pkg.Path() == "context" && strings.HasPrefix(f.Name(), "With") && len(c.Call.Args) > 0 {
				return fromParam(c.Call.Args[0], d+1)
			}
		}
		return false
	}
	n := 0
	for _, fn := range p.ModuleFuncs() {
		if fn.Blocks == nil || p.FuncInOverlay(fn) {
			continue
		}
		for _, b := range fn.Blocks {
			for _, in := range b.Instrs {
				st, ok := in.(*ssa.Store)
				if !ok {
					continue
				}
				fa, ok := st.Addr.(*ssa.FieldAddr)
				if !ok || core.FieldOfAddr(fa) != fCtx {
					continue
				}
				n++
				why := ""
				switch {
				case fn != nc:
					why = core.FuncName(fn) + " replaces the connection's context outside NewConn"
				case ctxParam == nil:
					why = "NewConn takes no context"
				case !fromParam(st.Val, 0):
					why = "Conn.ctx is " + core.Expr(st.Val) + ", which does not descend from the context passed to NewConn: cancelling that context no longer ends receives and sends on the connection (only Close does)"
				}
				r.Check(why == "", "R13.13", core.FuncName(fn)+": Conn.ctx assigned", st.Pos(), "context.WithCancel(ctx) of NewConn's parameter", why)
			}
		}
	}
	if n == 0 {
		r.Bad("R13.13", "Conn.ctx assigned", nc.Pos(), "no assignment of Conn.ctx found")
	}
}
